"""Prototype: syntax-directed path enumerator with exception outcomes.
A path = (events, outcome). outcome kinds: 'fall', 'return', 'raise', 'break', 'continue'.
events: tuples ('stmt', node) | ('branch', test, bool) | ('enter', item_expr, with_node) | ('exit', item_expr, with_node)
        | ('exc', classname, node) | ('loop', node, n)
"""
import ast, itertools

class Cfg:
    BONUS = 0

    def __init__(self, may_raise, hierarchy, unroll=1, maxpaths=20000, bonus=True):
        self.may_raise = may_raise      # fn(node) -> list of exception class names that node may raise ('*' = any BaseException)
        self.h = hierarchy              # fn(cls, handler_cls) -> bool  (is subclass)
        extra = Cfg.BONUS if bonus else 0
        self.unroll = unroll + extra   # the thorough tier explores every loop deeper (rules that only need "some iteration" opt out)
        self.maxpaths = maxpaths * (8 if extra else 1)

    # ---- helpers
    def seq(self, stmts):
        paths = [([], ('fall', None))]
        for s in stmts:
            new = []
            for ev, out in paths:
                if out[0] != 'fall':
                    new.append((ev, out)); continue
                for ev2, out2 in self.stmt(s):
                    new.append((ev + ev2, out2))
            paths = new
            if len(paths) > self.maxpaths:
                raise RuntimeError("path explosion")
        return paths

    def raising(self, node):
        """paths for the exceptional outcomes of evaluating node"""
        return [([('exc', c, node)], ('raise', c)) for c in self.may_raise(node)]

    def stmt(self, s):
        m = getattr(self, 'do_' + type(s).__name__, None)
        if m: return m(s)
        # simple statement
        return self.raising(s) + [([('stmt', s)], ('fall', None))]

    def do_Return(self, s):
        return self.raising(s) + [([('stmt', s)], ('return', s.value))]

    def do_Raise(self, s):
        name = exc_name(s.exc) if s.exc is not None else 'RERAISE'
        return [([('stmt', s), ('exc', name, s)], ('raise', name))]

    def do_Break(self, s): return [([('stmt', s)], ('break', None))]
    def do_Continue(self, s): return [([('stmt', s)], ('continue', None))]
    def do_FunctionDef(self, s): return [([('def', s)], ('fall', None))]
    do_AsyncFunctionDef = do_FunctionDef
    do_ClassDef = do_FunctionDef

    def do_If(self, s):
        out = self.raising(s.test)
        for b, body in ((True, s.body), (False, s.orelse)):
            for ev, o in self.seq(body):
                out.append(([('branch', s.test, b)] + ev, o))
        return out

    def loop(self, s, head_events, can_exit=True):
        results = []
        def rec(prefix, n):
            if can_exit:
                for ev, o in self.seq(s.orelse):
                    results.append((prefix + [('loopexit', s, n)] + ev, o))
            if n >= self.unroll:
                if not can_exit:
                    results.append((prefix, ('cut', None)))
                return
            for ev, o in self.seq(s.body):
                p = prefix + [('loopiter', s, n)] + head_events + ev
                if o[0] in ('fall', 'continue'):
                    rec(p, n + 1)
                elif o[0] == 'break':
                    results.append((p, ('fall', None)))
                else:
                    results.append((p, o))
        rec([], 0)
        return results

    def do_For(self, s):
        return self.raising(s.iter) + self.loop(s, [('iter', s)])
    def do_AsyncFor(self, s):
        return self.raising(('aiter', s)) + self.loop(s, [('aiter', s)])
    def do_While(self, s):
        infinite = isinstance(s.test, ast.Constant) and s.test.value is True
        return self.raising(s.test) + self.loop(s, [('branch', s.test, True)], can_exit=not infinite)

    def do_With(self, s, is_async=False):
        # enter items in order; if enter i raises, exit items < i in reverse
        def rec(i, prefix):
            if i == len(s.items):
                res = []
                for ev, o in self.seq(s.body):
                    exits = [('exit', it.context_expr, s) for it in reversed(s.items)]
                    res.append((prefix + ev + exits, o))
                return res
            it = s.items[i]
            res = []
            for c in self.may_raise(('enter', it, s, is_async)):
                exits = [('exit', jt.context_expr, s) for jt in reversed(s.items[:i])]
                res.append((prefix + [('exc', c, it.context_expr)] + exits, ('raise', c)))
            res += rec(i + 1, prefix + [('enter', it.context_expr, s)])
            return res
        return rec(0, [])
    def do_AsyncWith(self, s): return self.do_With(s, True)

    def do_Try(self, s):
        out = []
        for ev, o in self.seq(s.body):
            if o[0] == 'raise':
                handled = False
                for h in s.handlers:
                    names = handler_names(h)
                    if any(self.h(o[1], n) for n in names):
                        handled = True
                        for ev2, o2 in self.seq(h.body):
                            if o2 == ('raise', 'RERAISE'):
                                o2 = ('raise', o[1])
                            out.append((ev + [('handler', h, o[1])] + ev2, o2))
                        break
                if not handled:
                    out.append((ev, o))
            elif o[0] == 'fall':
                for ev2, o2 in self.seq(s.orelse):
                    out.append((ev + ev2, o2))
            else:
                out.append((ev, o))
        if s.finalbody:
            res = []
            for ev, o in out:
                for ev2, o2 in self.seq(s.finalbody):
                    res.append((ev + [('finally', s)] + ev2, o if o2[0] == 'fall' else o2))
            out = res
        return out

def evaluated(ev):
    """every node evaluated along an event sequence, in order: statements, branch tests, loop iterables,
    context expressions"""
    for e in ev:
        k = e[0]
        if k == 'stmt': yield e[1]
        elif k == 'branch': yield e[1]
        elif k == 'iter': yield e[1].iter
        elif k == 'aiter': yield e[1].iter
        elif k == 'enter': yield e[1]


def exc_name(e):
    if isinstance(e, ast.Call): e = e.func
    if isinstance(e, ast.Attribute): return e.attr
    if isinstance(e, ast.Name): return e.id
    return '?'

def handler_names(h):
    if h.type is None: return ['BaseException']
    if isinstance(h.type, ast.Tuple): return [exc_name(x) for x in h.type.elts]
    return [exc_name(h.type)]
