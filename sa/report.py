"""Check context: obligations, findings, evidence, known findings, replay files, exit-code policy."""
import ast
import json
import os
import pathlib
import time

from .model import *

VERIF = pathlib.Path(__file__).resolve().parent.parent
EVIDENCE_DIR = VERIF / "evidence"
KNOWN_FILE = VERIF / "known_findings.json"

ASSUMPTIONS = [
    "CPython/asyncio/pathlib/io behave as documented; the kernel delivers bytes in order",
    "only the shipped implementations are analysed (MemoryUserManager, PathIO/AsyncPathIO/MemoryPathIO); user-supplied subclasses may add suspension points or exceptions",
    "no monkey-patching of aioftp at run time; no dynamic attribute writes beyond what the source shows",
    "the event loop is single-threaded: code between two may-suspend awaits is atomic",
    "a pass means the structural necessary conditions listed as 'decided' hold on every path of the analysed code; the behavioural clauses listed as 'not decided' are not claimed",
]


class Ctx:
    """one run of one property check"""

    def __init__(self, prop, program, tier="quick"):
        self.prop = prop
        self.p = program
        self.tier = tier
        self.obligations = []  # dict(rule, site, what, ok)
        self.findings = []
        self.notes = []
        self.rules = {}  # rule -> dict(instances, floor, text)
        self.paths_enumerated = 0
        self.floor_errors = []
        self.rule_errors = []

    def rule(self, rule, text):
        self.rules.setdefault(rule, {"instances": 0, "failed": 0, "floor": 0, "text": text})

    def _site(self, node, function=None):
        if isinstance(node, ast.AST):
            mod, line = self.p.loc(node)
            fn = function or self.p.fn_of(node)
            return mod, line, fn
        return "?", 0, function or "?"

    def ob(self, rule, node, what, ok, message=None, construct=None, function=None):
        """record one obligation (rule instance); a failed one becomes a finding"""
        mod, line, fn = self._site(node, function)
        self.rules.setdefault(rule, {"instances": 0, "failed": 0, "floor": 0, "text": ""})
        self.rules[rule]["instances"] += 1
        self.obligations.append({"rule": rule, "site": f"{mod}:{fn}", "what": what, "ok": bool(ok)})
        if not ok:
            self.rules[rule]["failed"] += 1
            c = construct if construct is not None else (src(node)[:160] if isinstance(node, ast.AST) else str(node))
            f = Finding(self.prop, rule, mod, line, fn, c, message or what)
            if f.key() not in {x.key() for x in self.findings}:
                self.findings.append(f)
        return bool(ok)

    def fail(self, rule, node, message, construct=None, function=None):
        return self.ob(rule, node, message, False, message, construct, function)

    def floor(self, rule, floor, what="instances"):
        """a rule that matches fewer instances than confirmed by hand is an analysis error, not a pass"""
        self.rules.setdefault(rule, {"instances": 0, "failed": 0, "floor": 0, "text": ""})
        self.rules[rule]["floor"] = floor
        n = self.rules[rule]["instances"]
        if n < floor:
            # not raised at once: a violation found elsewhere takes priority over a missed floor (cli decides)
            self.floor_errors.append(f"rule={rule} matched {n} {what}, floor is {floor} (the rule would pass vacuously)")

    def note(self, text):
        self.notes.append(text)

    def borrow(self, rule_fn, rename, only=None):
        """run a rule of another property inside this check and re-label what it records
        (rename: {'C10.FINALLY': 'C19.RELEASE', ...}); used where one property's clause IS another property's rule"""
        sub = Ctx(self.prop, self.p, self.tier)
        rule_fn(sub)
        self.paths_enumerated += sub.paths_enumerated
        self.floor_errors += sub.floor_errors
        for r, d in sub.rules.items():
            if r in rename:
                self.rules[rename[r]] = dict(d)
        for o in sub.obligations:
            if o["rule"] in rename and (only is None or only(o.get("site", "").split(":", 1)[-1])):
                self.obligations.append(dict(o, rule=rename[o["rule"]]))
        for f in sub.findings:
            if f.rule in rename and (only is None or only(f.function or "")):
                g = Finding(self.prop, rename[f.rule], f.module, f.line, f.function, f.construct, f.message)
                if g.key() not in {x.key() for x in self.findings}:
                    self.findings.append(g)


def load_known():
    if not KNOWN_FILE.exists():
        return []
    return json.loads(KNOWN_FILE.read_text()).get("findings", [])


def known_match(f, known):
    for k in known:
        if k.get("status") != "known":
            continue
        if k["property"] == f.prop and k["rule"] == f.rule and k["function"] == f.function and k["construct"] == f.construct:
            return k
    return None


def write_evidence(ctx, wall, seed, explanation, not_decided, status, unknown, known_hits, extra=None):
    EVIDENCE_DIR.mkdir(exist_ok=True)
    obs = ctx.obligations
    distinct = len({(o["rule"], o["site"], o["what"]) for o in obs})
    per_rule = {}
    samples = []
    seen_rule = {}
    for o in obs:
        seen_rule.setdefault(o["rule"], 0)
        if seen_rule[o["rule"]] < 4:
            samples.append(o)
            seen_rule[o["rule"]] += 1
    for r, d in sorted(ctx.rules.items()):
        per_rule[r] = {"instances": d["instances"], "failed": d["failed"], "floor": d["floor"], "rule": d["text"]}
    cov = {
        "explanation": explanation,
        "obligations": len(obs),
        "discharged": sum(1 for o in obs if o["ok"]),
        "evaluations": len(obs),
        "distinct_nontrivial": distinct,
        "rule": "one obligation per (rule, construct) instance found in the current source of /repo/src/aioftp; "
                "an instance is non-trivial because its verdict is computed from the code (paths, resolved names, tables), "
                "distinct = distinct (rule, function, obligation text) triples",
        "samples": samples,
        "rules": per_rule,
        "analysed": dict(ctx.p.stats, paths_enumerated=ctx.paths_enumerated),
        "not_decided": not_decided,
        "status": status,
        "known_findings_reported": [str(f) for f in known_hits],
        "violations_reported": [str(f) for f in unknown],
        "notes": ctx.notes,
        "exhaustive": True,
        "checker_cmd": f"./check {ctx.prop} --tier {ctx.tier}",
        "trusted_base": ["CPython ast module", "the rule tables in /verif/sa/props", "asyncio/pathlib semantics as modelled"],
    }
    if extra:
        cov.update(extra)
    ev = {
        "property_id": ctx.prop, "tier": ctx.tier, "seed": seed, "level": "other",
        "coverage": cov, "assumptions": ASSUMPTIONS, "wall_s": round(wall, 3), "violations": len(unknown),
    }
    (EVIDENCE_DIR / f"{ctx.prop}.json").write_text(json.dumps(ev, indent=1, default=str) + "\n")


def write_replay(f, n):
    d = EVIDENCE_DIR / "replay"
    d.mkdir(parents=True, exist_ok=True)
    path = d / f"{f.prop}-{n}.json"
    path.write_text(json.dumps({
        "property": f.prop, "rule": f.rule, "module": f.module, "function": f.function,
        "construct": f.construct, "message": f.message, "line_at_report": f.line,
    }, indent=1) + "\n")
    return path
