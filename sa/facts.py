"""Per-path facts shared by several properties: replies (with constant propagation), spawns, delegation,
backend access, return value; wrapper "reply xor delegate" analysis."""
import ast
from .model import *
from .util import *
from .paths import Cfg, evaluated

CLOSING = {"221", "421"}


class _NoneConst:
    def __bool__(self):
        return False

    def __repr__(self):
        return "None"


NONE_CONST = _NoneConst()


class PathFacts:
    """interpret one event sequence of a handler/worker: constants, replies, spawns, delegation"""

    def __init__(self, p, fn, conn, ev, out, helper_depth=2):
        self.replies = []  # (code or None, node)
        self.spawned = False
        self.cancels = False
        self.delegate = None
        self.infeasible = False
        self.backend_after_success = None
        self.backend_nodes = []
        env = {}
        truthy = []  # source text of exprs tested truthy on this path
        falsy = []
        methods = p.methods("Server")
        table_methods = set(p.command_table()[0].values())

        def const_of(a):
            if isinstance(a, ast.Constant):
                return a.value
            if isinstance(a, ast.Starred) and isinstance(a.value, ast.Name):
                v = env.get(a.value.id)
                return v[0] if isinstance(v, tuple) and v else None
            if isinstance(a, ast.Starred) and isinstance(a.value, ast.Attribute):
                v = const_values(p, a, fn)
                return v[0] if v else None
            if isinstance(a, ast.Name):
                v = env.get(a.id)
                return None if v is NONE_CONST else v
            return None  # self.fail_code etc. are resolved by the wrapper rule

        def bind(t, v):
            if isinstance(t, ast.Name):
                if isinstance(v, ast.Tuple) and v.elts and all(isinstance(x, ast.Constant) for x in v.elts[:1]):
                    env[t.id] = tuple(x.value if isinstance(x, ast.Constant) else None for x in v.elts)
                elif isinstance(v, ast.Constant) and v.value is None:
                    env[t.id] = NONE_CONST    # the constant None (env value None means "unknown")
                else:
                    env[t.id] = v.value if isinstance(v, ast.Constant) else (env.get(v.id) if isinstance(v, ast.Name) else None)

        for e in ev:
            if e[0] == "branch":
                t, pol = e[1], e[2]
                tt, tpol = t, pol
                if isinstance(tt, ast.UnaryOp) and isinstance(tt.op, ast.Not):
                    tt, tpol = tt.operand, not tpol
                if tpol:
                    truthy.append(src(tt))
                    truthy.append(src(expand(p, tt, fn)))
                else:
                    falsy.append(src(tt))
                if isinstance(tt, ast.Name) and tt.id in env and env[tt.id] is not None and bool(env[tt.id]) != tpol:
                    self.infeasible = True
                if isinstance(tt, ast.Compare) and len(tt.ops) == 1 and isinstance(tt.ops[0], (ast.Is, ast.IsNot)) and isinstance(tt.left, ast.Name) and tt.left.id in env \
                        and env[tt.left.id] is not None and isinstance(tt.comparators[0], ast.Constant) and tt.comparators[0].value is None:
                    is_none = env[tt.left.id] is NONE_CONST
                    if (is_none if isinstance(tt.ops[0], ast.Is) else not is_none) != tpol:
                        self.infeasible = True
                if isinstance(tt, ast.Constant) and bool(tt.value) != tpol:
                    self.infeasible = True
                if isinstance(tt, ast.Compare) and len(tt.ops) == 1 and isinstance(tt.ops[0], (ast.Eq, ast.NotEq)) \
                        and isinstance(tt.left, ast.Name) and tt.left.id in env and env[tt.left.id] is not None and isinstance(tt.comparators[0], ast.Constant):
                    eq = env[tt.left.id] == tt.comparators[0].value
                    if isinstance(tt.ops[0], ast.NotEq):
                        eq = not eq
                    if eq != tpol:
                        self.infeasible = True
                nodes = [t]
            elif e[0] == "loopexit":
                if e[2] == 0 and isinstance(e[1], (ast.For, ast.AsyncFor)) and (src(e[1].iter) in truthy or src(expand(p, e[1].iter, fn)) in truthy):
                    self.infeasible = True
                continue
            elif e[0] == "stmt":
                nodes = [e[1]]
            elif e[0] in ("iter", "aiter"):
                nodes = [e[1].iter]
            elif e[0] == "enter":
                nodes = [e[1]]
            else:
                continue
            n = nodes[0]
            if e[0] == "stmt" and isinstance(n, ast.Assign):
                tg = n.targets[0]
                if isinstance(tg, ast.Tuple) and isinstance(n.value, ast.Tuple) and len(tg.elts) == len(n.value.elts):
                    for t, v in zip(tg.elts, n.value.elts):
                        bind(t, v)
                elif isinstance(tg, ast.Tuple) and isinstance(n.value, ast.Attribute) and isinstance(n.value.value, ast.Name) and n.value.value.id in ("self", "cls"):
                    cc = p.enclosing_class(fn) or p.enclosing_class(p.enclosing_function(fn) or fn)
                    tv = p.class_attr_const(cc.name, n.value.attr) if cc is not None else None
                    if isinstance(tv, tuple) and len(tv) == len(tg.elts):
                        for t, v in zip(tg.elts, tv):
                            if isinstance(t, ast.Name):
                                env[t.id] = v if isinstance(v, (str, int, bool)) else None
                elif isinstance(tg, ast.Name):
                    bind(tg, n.value)
                    if isinstance(n.value, ast.IfExp):
                        env[tg.id] = None
            for c in walk_self(n):
                if isinstance(c, ast.Call):
                    if is_reply(c, conn) and c.args:
                        a = c.args[0]
                        self.replies.append((const_of(a), c))
                    elif is_reply(c, conn):
                        self.replies.append((None, c))
                    if is_method_call(c, "add", "extra_workers"):
                        self.spawned = True
                    if is_method_call(c, "cancel"):
                        self.cancels = True
                    if is_self_call(c) and c.func.attr in methods:
                        if e[0] == "stmt" and isinstance(n, ast.Return) and c.func.attr in table_methods:
                            self.delegate = c.func.attr
                        elif c.func.attr not in table_methods and helper_depth > 0:
                            codes, hret = helper_summary(p, methods[c.func.attr], c, conn, helper_depth - 1)
                            for code in codes:
                                self.replies.append((code, c))
                            if e[0] == "stmt" and isinstance(n, ast.Return) and (n.value is c or (isinstance(n.value, ast.Await) and n.value.value is c)):
                                self._helper_ret = hret
                if isinstance(c, ast.Attribute) and c.attr == "path_io":
                    self.backend_nodes.append(n)
                    if any((code or "")[:1] in ("2", "3") for code, _ in self.replies) and self.backend_after_success is None:
                        self.backend_after_success = n
        self.ret = None
        if out[0] == "return":
            v = out[1]
            if getattr(self, "_helper_ret", "?") in (True, False):
                self.ret = self._helper_ret
            elif isinstance(v, ast.Constant):
                self.ret = v.value
            elif isinstance(v, ast.Name) and v.id in env and env[v.id] is not None:
                self.ret = None if env[v.id] is NONE_CONST else env[v.id]
            elif isinstance(v, ast.Name) and src(v) in truthy + falsy and len(local_defs(fn, v.id)) == 1:
                self.ret = src(v) in truthy     # `return flag` after `if flag:` on this path
            elif isinstance(v, ast.UnaryOp) and isinstance(v.op, ast.Not) and isinstance(v.operand, ast.Name) and src(v.operand) in truthy + falsy \
                    and len(local_defs(fn, v.operand.id)) == 1:
                self.ret = src(v.operand) in falsy
            elif self.delegate:
                self.ret = "delegate:" + self.delegate
            elif v is None:
                self.ret = None
            else:
                self.ret = "expr:" + src(v)
        self.kind = out[0]
        self.raised = out[1] if out[0] == "raise" else None


def helper_summary(p, helper, call, conn, depth):
    """(reply codes, return constant or None) of a non-handler helper method called with the session as an argument:
    the same codes / the same constant on every normal path, else ([None], None) = unknown"""
    codes = helper_reply_codes(p, helper, call, conn, depth)
    rets = set()
    for ev, out in enum_paths(p, helper):
        if out[0] == "return" and isinstance(out[1], ast.Constant):
            rets.add(out[1].value)
        elif out[0] in ("return", "fall"):
            rets.add("?")
    return codes, (next(iter(rets)) if len(rets) == 1 and "?" not in rets else None)


def helper_reply_codes(p, helper, call, conn, depth):
    """reply codes a non-handler helper method emits when called with the session as an argument
    (the same codes on every normal path, else [None] = unknown)"""
    params = [a.arg for a in helper.args.args]
    hconn = None
    for i, a in enumerate(call.args):
        if isinstance(a, ast.Name) and a.id == conn and i + 1 < len(params):
            hconn = params[i + 1]
    if hconn is None:
        return []
    if not any(is_reply(c, hconn) for c in ast.walk(helper)):
        return []
    sigs = set()
    for ev, out in enum_paths(p, helper):
        if out[0] in ("raise", "cut"):
            continue
        pf = PathFacts(p, helper, hconn, ev, out, helper_depth=depth)
        if pf.infeasible:
            continue
        sigs.add(tuple(c for c, _ in pf.replies))
    if len(sigs) == 1:
        return list(next(iter(sigs)))
    return [None]


# ---------------------------------------------------------------- wrappers
def wrapper_paths(p, deco):
    """[(replies [(code node, call)], delegated bool, out, events)] over all paths of a decorator's wrapper;
    awaits of wait_for may raise TimeoutError (the guard's 'not yet' path)"""
    w = p.wrapper_of(deco)
    fparam = p.wrapped_param(deco)
    conn = [a.arg for a in w.args.args][1]

    def may_raise(node):
        if isinstance(node, (tuple, ast.expr)) or isinstance(node, FuncT):
            return []
        if any(isinstance(x, ast.Await) and isinstance(x.value, ast.Call) and (dotted(x.value.func) or "") in ("asyncio.wait_for", "wait_for")
               for x in walk_self(node)):
            return ["TimeoutError"]
        return []
    out = []
    for ev, o in Cfg(may_raise, p.issub, unroll=2).seq(w.body):
        replies = []
        delegated = False
        for n in evaluated(ev):
            for c in walk_self(n):
                if is_reply(c, conn):
                    replies.append(c)
                if isinstance(c, ast.Call) and isinstance(c.func, ast.Name) and c.func.id == fparam:
                    delegated = True
        out.append((replies, delegated, o, ev))
    return w, conn, out


def check_wrapper(ctx, deco, rule, zero_iter_ok=False, count_replies=True):
    """every path through the wrapper either replies exactly once and returns True without calling the wrapped
    function, or calls it without replying and returns its result"""
    p = ctx.p
    w, conn, paths = wrapper_paths(p, deco)
    seen = set()
    for replies, delegated, out, ev in paths:
        if out[0] in ("cut", "raise"):
            continue
        stmts = [e[1] for e in ev if e[0] == "stmt"]
        last = stmts[-1] if stmts else w
        ret_true = out[0] == "return" and isinstance(out[1], ast.Constant) and out[1].value is True
        ret_deleg = out[0] == "return" and out[1] is not None and any(
            isinstance(c, ast.Call) and isinstance(c.func, ast.Name) and c.func.id == p.wrapped_param(deco) for c in ast.walk(out[1]))
        sig = (len(replies) if count_replies else min(len(replies), 1), delegated, ret_true, ret_deleg, out[0])
        if sig in seen:
            continue
        seen.add(sig)
        if delegated:
            ok = not replies and ret_deleg
            ctx.ob(rule, last, f"{deco} wrapper: delegating path emits no reply and returns the wrapped result", ok,
                   f"{deco} wrapper replies and still calls the wrapped function, or drops its result",
                   construct=f"{deco}.wrapper:delegate with {len(replies)} replies ret_deleg={ret_deleg}", function=p.qualname(w))
        else:
            if zero_iter_ok and not replies and out[0] == "fall":
                continue  # zero-iteration path, excluded by the arity rule
            ok = (len(replies) == 1 if count_replies else len(replies) >= 1) and ret_true
            ctx.ob(rule, last, f"{deco} wrapper: refusing path emits " + ("exactly one reply" if count_replies else "a reply") + " and returns True", ok,
                   f"{deco} wrapper path without delegation emits {len(replies)} replies / does not return True",
                   construct=f"{deco}.wrapper:{len(replies)} replies, no delegation, ret_true={ret_true}", function=p.qualname(w))
    return w, conn, paths


def field_names(p):
    """ConnectionConditions.<name> = ("field", "message") class constants -> {name: field}"""
    out = {}
    for n in p.cls("ConnectionConditions").body:
        if isinstance(n, ast.Assign) and isinstance(n.value, ast.Tuple) and isinstance(n.targets[0], ast.Name):
            try:
                v = ast.literal_eval(n.value)
            except Exception:
                continue
            if v and isinstance(v[0], str):
                out[n.targets[0].id] = v[0]
    if "login_required" not in out:
        raise AnalysisError("anchor=ConnectionConditions.login_required not found")
    return out


def deco_fields(d):
    return {a[0] for a in d.args if isinstance(a, tuple) and a and isinstance(a[0], str)}


def is_guard(d, field):
    return d.name == "ConnectionConditions" and field in deco_fields(d)


def session_kwargs(p):
    """keyword -> value node of the session constructor, with a `**self.<attr>` splat resolved through the dict literal / dict(...) assigned
    to that attribute in Server.__init__ (None values mark keywords whose value the analysis cannot see)"""
    ctor = p.session_ctor()
    out = {}
    for k in ctor.keywords:
        if k.arg is not None:
            out[k.arg] = k.value
            continue
        v = k.value
        resolved = None
        if isinstance(v, ast.Attribute) and isinstance(v.value, ast.Name) and v.value.id == "self":
            for n in walk_no_nested(p.method("Server", "__init__")):
                if isinstance(n, ast.Assign) and any(isinstance(t, ast.Attribute) and t.attr == v.attr for t in n.targets):
                    resolved = n.value
        if isinstance(resolved, ast.Dict):
            for kk, vv in zip(resolved.keys, resolved.values):
                if isinstance(kk, ast.Constant):
                    out.setdefault(kk.value, vv)
        elif isinstance(resolved, ast.Call) and isinstance(resolved.func, ast.Name) and resolved.func.id == "dict":
            for kk in resolved.keywords:
                if kk.arg:
                    out.setdefault(kk.arg, kk.value)
        else:
            out["**"] = v
    return out


def data_stream_sites(p):
    """[(verb, handler, store stmt, ctor call, how)] for every assignment of the session's data-connection field inside the passive handlers:
    the stream constructor call is either written in place, or found as the returned constructor of a helper method of the control stream
    (`<session>.command_connection.<helper>(reader, writer)`); how is 'direct' or ('via', helper function node)"""
    field = field_names(p).get("data_connection_made", "data_connection")
    out = []
    for verb, name, h in p.handlers():
        for st, tgt in attr_stores(h, field):
            if not isinstance(st, ast.Assign):
                continue
            v = st.value
            if isinstance(v, ast.Call) and last_attr(v.func) in ("ThrottleStreamIO", "StreamIO"):
                out.append((verb, h, st, v, "direct"))
            elif isinstance(v, ast.Call) and ((isinstance(v.func, ast.Attribute) and v.func.attr == "__class__" and last_attr(v.func.value) == "command_connection")
                                              or (isinstance(v.func, ast.Call) and isinstance(v.func.func, ast.Name) and v.func.func.id == "type" and v.func.args
                                                  and last_attr(v.func.args[0]) == "command_connection")):
                out.append((verb, h, st, v, "direct"))   # a sibling of the control stream, constructed in place
            elif isinstance(v, ast.Call) and isinstance(v.func, ast.Attribute) and last_attr(v.func.value) == "command_connection":
                helper = None
                for cls in ("ThrottleStreamIO", "StreamIO"):
                    if cls in p.classes and v.func.attr in p.methods(cls):
                        helper = p.methods(cls)[v.func.attr]
                        break
                ctor = None
                if helper is not None:
                    for r in walk_no_nested(helper):
                        if isinstance(r, ast.Return) and isinstance(r.value, ast.Call):
                            fs = src(r.value.func)
                            if fs in ("self.__class__", "type(self)", "ThrottleStreamIO", "StreamIO", "cls"):
                                ctor = r.value
                out.append((verb, h, st, ctor, ("via", helper)))
            else:
                out.append((verb, h, st, None, "unknown"))
    return out


def response_primitive(p):
    """the `response=` argument of the session constructor as (arguments node, body call node) - a lambda, or a local
    function of the dispatcher whose body is one `return <call>` / `<call>` statement; (None, None) otherwise"""
    ctor = p.session_ctor()
    resp = next((k.value for k in ctor.keywords if k.arg == "response"), None)
    if isinstance(resp, ast.Lambda):
        return resp.args, resp.body, resp
    if isinstance(resp, ast.Name):
        d = p.enclosing_function(ctor)
        for n in ast.walk(d):
            if isinstance(n, ast.FunctionDef) and n.name == resp.id:
                body = [s for s in n.body if not (isinstance(s, ast.Expr) and isinstance(s.value, ast.Constant))]
                if len(body) == 1 and isinstance(body[0], (ast.Return, ast.Expr)) and body[0].value is not None:
                    return n.args, body[0].value, n
    return None, None, resp
